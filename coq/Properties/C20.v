(* C20 — table names resolve by a fixed precedence.  Statements only; `ex` is an ARBITRARY
   file-system predicate, so every theorem holds for all arrangements of files. *)
From Coq Require Import List NArith Bool.
From Lou Require Import Model.ResolveDefs Gen.GResolve Model.Resolve Proofs.ResolveProofs.
Import ListNotations.
Local Open Scope N_scope.

Theorem resolve_is_first_existing_candidate : forall ex t b sp, t <> [] ->
  resolve_sub ex t b sp = find ex (candidates t b sp).
Proof. exact resolve_first_existing. Qed.

Theorem candidate_order : forall t b sp,
  candidates t (Some b) sp =
    (dirpart b ++ t) :: t :: match sp with [] => [] | _ => path_cands (split_commas sp) t end.
Proof. exact candidates_shape. Qed.

(* a match relative to the including file's directory wins *)
Theorem base_dir_first : forall ex t b sp, t <> [] ->
  ex (dirpart b ++ t) = true -> resolve_sub ex t (Some b) sp = Some (dirpart b ++ t).
Proof. exact base_dir_first_l. Qed.
Print Assumptions base_dir_first.

(* ... over the name as given (absolute, or relative to the working directory) *)
Theorem as_given_next : forall ex t b sp, t <> [] ->
  ex (dirpart b ++ t) = false -> ex t = true -> resolve_sub ex t (Some b) sp = Some t.
Proof. exact as_given_next_l. Qed.

(* ... over the search-path directories, which are tried in listed order *)
Theorem path_in_order : forall ex t b sp, t <> [] -> sp <> [] ->
  ex (dirpart b ++ t) = false -> ex t = false ->
  resolve_sub ex t (Some b) sp = find ex (path_cands (split_commas sp) t).
Proof. exact path_in_order_l. Qed.

Theorem earlier_dir_wins : forall ex d d' ds t p,
  find ex (loop_cands resolve_loop t (fix_dir d) false) = Some p ->
  find ex (path_cands (d :: d' :: ds) t) = Some p.
Proof. exact earlier_dir_wins_l. Qed.

Theorem later_dir_only_if_earlier_absent : forall ex d d' ds t,
  find ex (loop_cands resolve_loop t (fix_dir d) false) = None ->
  find ex (path_cands (d :: d' :: ds) t) = find ex (path_cands (d' :: ds) t).
Proof. exact later_dir_only_if_earlier_absent_l. Qed.

Theorem not_found_fails : forall ex t b sp,
  (forall p, In p (candidates t b sp) -> ex p = false) -> resolve_sub ex t b sp = None.
Proof. exact not_found_fails_l. Qed.

Theorem found_exists : forall ex t b sp p,
  resolve_sub ex t b sp = Some p -> ex p = true /\ In p (candidates t b sp).
Proof. exact found_exists_l. Qed.

(* the choice is a function of the name, the base, the search path and the files present at the
   candidate locations - nothing else (in particular no history) *)
Theorem resolve_pure : forall ex1 ex2 t b sp,
  (forall p, In p (candidates t b sp) -> ex1 p = ex2 p) -> resolve_sub ex1 t b sp = resolve_sub ex2 t b sp.
Proof. exact resolve_ext_l. Qed.
Print Assumptions resolve_pure.

(* base rules read from the source: list members after the first use the first member's name,
   include uses the including file, a failed include counts as an error, top level has no base *)
Theorem base_rules :
  list_base_becomes_first_name_as_given = true /\ include_base_is_including_file = true /\
  include_failure_counts_error = true /\ toplevel_base_is_null = true.
Proof. exact base_rules_l. Qed.

Theorem search_path_order : forall e d b, e <> [] -> d <> [] ->
  search_path (Some e) (Some d) b = e ++ [comma] ++ d ++ [sep] ++ [108; 105; 98; 108; 111; 117; 105; 115; 47; 116; 97; 98; 108; 101; 115].
Proof. exact search_path_order_l. Qed.

Theorem search_path_default : forall b, search_path None None b = b.
Proof. exact search_path_default_l. Qed.

(* non-vacuity: a file system where the path directory is what decides *)
Example path_decides :
  let ex := fun p : path => match p with [100; 50; 47; 109] => true | _ => false end in
  resolve_sub ex [109] (Some [105; 47; 120]) [100; 49; 44; 100; 50] = Some [100; 50; 47; 109].
Proof. reflexivity. Qed.
