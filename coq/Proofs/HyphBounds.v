From Coq Require Import List NArith ZArith Bool Lia.
From Lou Require Import Model.Hyph.
Import ListNotations.
Local Open Scope N_scope.

Lemma bump_length : forall h i v, length (bump h i v) = length h.
Proof. induction h as [|x h IH]; intros [|i] v; cbn [bump length]; try reflexivity; rewrite IH; reflexivity. Qed.

Lemma apply_pat_length : forall pat h off n oob, length (fst (apply_pat h off pat n oob)) = length h.
Proof.
  induction pat as [|v pat IH]; intros h off n oob; cbn [apply_pat]; [reflexivity|].
  destruct (off <? n)%Z; [|reflexivity].
  destruct (off <? 0)%Z; rewrite IH; [reflexivity|apply bump_length].
Qed.

Lemma walk_aux_length : forall t text i st n h oob, length (fst (walk_aux t text i st n h oob)) = length h.
Proof.
  intros t text. induction text as [|ch text IH]; intros i st n h oob; cbn [walk_aux]; [reflexivity|].
  destruct (next_state _ t st ch) as [st'|]; [|apply IH].
  destruct (state_of t st') as [[pat|]|].
  - destruct (apply_pat h _ pat n oob) as [h' oob'] eqn:E. rewrite IH.
    change h' with (fst (h', oob')). rewrite <- E. apply apply_pat_length.
  - apply IH.
  - apply IH.
Qed.

Lemma walk_length : forall t w, length (fst (walk t w)) = length w.
Proof. intros t w. unfold walk. rewrite walk_aux_length. apply repeat_length. Qed.

Definition okmark (m : N) : Prop := m = 48 \/ m = 49 \/ m = 50.

Section W.
  Variable is_letter : char -> bool.
  Variable lower : char -> char.
  Variable is_hyphen : char -> bool.
  Variable t : trie.

  Lemma span_letters_app : forall s w rest, span_letters is_letter s = (w, rest) -> s = w ++ rest.
  Proof.
    induction s as [|c s IH]; intros w rest H; cbn [span_letters] in H.
    - inversion H; reflexivity.
    - destruct (is_letter c).
      + destruct (span_letters is_letter s) as [a b] eqn:E. inversion H; subst. cbn [app]. f_equal. apply IH; reflexivity.
      + inversion H; subst. reflexivity.
  Qed.

  Lemma norm_ok : forall v, okmark (norm v).
  Proof. intros v. unfold norm, okmark. destruct (N.odd v); auto. Qed.

  Lemma word_marks_ok : forall p2 p1 w,
    length (fst (word_marks is_letter lower is_hyphen t p2 p1 w)) = length w /\
    Forall okmark (fst (word_marks is_letter lower is_hyphen t p2 p1 w)).
  Proof.
    intros p2 p1 w. unfold word_marks.
    destruct (walk t (map lower w)) as [h oob] eqn:E.
    assert (Hl : length h = length w).
    { change h with (fst (h, oob)). rewrite <- E. rewrite walk_length. apply map_length. }
    cbn [fst]. destruct h as [|x h].
    - split; [exact Hl|constructor].
    - cbn [length] in *. rewrite map_length. split; [exact Hl|].
      constructor.
      + unfold okmark. destruct p2 as [a|]; destruct p1 as [b|]; auto.
        destruct (is_hyphen b && is_letter a); auto.
      + apply Forall_forall. intros m Hm. apply in_map_iff in Hm. destruct Hm as [v [Hv _]]. subst. apply norm_ok.
  Qed.

  Lemma hyph_text_ok : forall fuel s p2 p1, (length s <= fuel)%nat ->
    length (fst (hyph_text is_letter lower is_hyphen t fuel p2 p1 s)) = length s /\
    Forall okmark (fst (hyph_text is_letter lower is_hyphen t fuel p2 p1 s)).
  Proof.
    induction fuel as [|f IH]; intros s p2 p1 Hf.
    - destruct s; [|cbn in Hf; lia]. cbn. split; [reflexivity|constructor].
    - cbn [hyph_text]. destruct s as [|c s']; [cbn; split; [reflexivity|constructor]|].
      destruct (is_letter c) eqn:Ec.
      + destruct (span_letters is_letter (c :: s')) as [w rest] eqn:Es.
        pose proof (span_letters_app _ _ _ Es) as Happ.
        assert (Hw : w <> []).
        { cbn [span_letters] in Es. rewrite Ec in Es. destruct (span_letters is_letter s'); inversion Es; discriminate. }
        destruct (word_marks is_letter lower is_hyphen t p2 p1 w) as [m oob] eqn:Em.
        pose proof (word_marks_ok p2 p1 w) as [Hl Hok]. rewrite Em in Hl, Hok. cbn [fst] in Hl, Hok.
        assert (Hr : (length rest <= f)%nat).
        { assert (length (c :: s') = length w + length rest)%nat by (rewrite Happ; apply app_length).
          cbn [length] in *. destruct w; [contradiction|]. cbn [length] in *. lia. }
        destruct (hyph_text is_letter lower is_hyphen t f p1 (Some (last w c)) rest) as [m' oob'] eqn:Er.
        pose proof (IH rest p1 (Some (last w c)) Hr) as [Hl' Hok']. rewrite Er in Hl', Hok'. cbn [fst] in *.
        split.
        * rewrite app_length, Hl, Hl', Happ, app_length. reflexivity.
        * apply Forall_app; split; assumption.
      + destruct (hyph_text is_letter lower is_hyphen t f p1 (Some c) s') as [m' oob'] eqn:Er.
        assert (Hr : (length s' <= f)%nat) by (cbn [length] in Hf; lia).
        pose proof (IH s' p1 (Some c) Hr) as [Hl' Hok']. rewrite Er in Hl', Hok'. cbn [fst] in *.
        split; [cbn [length]; rewrite Hl'; reflexivity|].
        constructor; [unfold okmark; auto|exact Hok'].
  Qed.

  Lemma hyphenate_marks : forall s marks oob,
    hyphenate is_letter lower is_hyphen t s = Some (marks, oob) ->
    length marks = length s /\ Forall (fun m => m = 48 \/ m = 49 \/ m = 50) marks.
  Proof.
    intros s marks oob H. unfold hyphenate in H. destruct (Nat.leb HYPHSTRING (length s)); [discriminate|].
    inversion H as [H1]. pose proof (hyph_text_ok (length s) s None None (Nat.le_refl _)) as [Hl Hok].
    rewrite H1 in Hl, Hok. cbn [fst] in *. split; [exact Hl|exact Hok].
  Qed.
End W.
