"""G7: inventory of persistent (static / file-scope, non-const) variables, the cache key comparison of getTable,
and the statements of lou_free."""
import re
from pathlib import Path
import cparse
from g_common import *
from g_log import show_stmt

NAME = "GStatics"
FILES = ["commonTranslationFunctions.c", "compileTranslationTable.c", "logging.c", "lou_backTranslateString.c",
         "lou_translateString.c", "metadata.c", "pattern.c", "utils.c"]


def decl_names(stmt):
    """names declared by `static ... ;' (variables only)"""
    body = stmt[len("static"):].strip()
    # function pointer variable: ... (EXPORT_CALL *name)(...) = ...
    m = re.search(r"\(\s*(?:EXPORT_CALL\s*)?\*\s*(\w+)\s*\)\s*\(", body)
    if m:
        return [m.group(1)], False
    head = body.split("=")[0] if "=" in body else body
    if "(" in head:
        return [], False          # a function prototype
    # const data (not a pointer to const): skip
    toks = head.replace("*", " * ").split()
    is_const = "const" in toks
    is_ptr = "*" in toks
    names = []
    # split declarators at top-level commas of the whole statement (ignore initialisers)
    depth = 0
    cur = ""
    parts = []
    for ch in body:
        if ch in "{([":
            depth += 1
        elif ch in "})]":
            depth -= 1
        if ch == "," and depth == 0:
            parts.append(cur)
            cur = ""
        else:
            cur += ch
    parts.append(cur)
    for i, p in enumerate(parts):
        p = p.split("=")[0]
        m = re.search(r"(\w+)\s*(\[[^\]]*\]\s*)*$", p.strip())
        if m:
            names.append(m.group(1))
    if is_const and not is_ptr:
        return [], True
    return names, False


def generate(repo):
    inv = []
    for f in FILES:
        src = source(repo, f)
        funcs = cparse.list_functions(src)
        # function-scope statics
        spans = []
        pos = 0
        for fn, body in funcs:
            i = src.find(body, pos)
            if i >= 0:
                spans.append((i, i + len(body), fn))
                pos = i + len(body)
        for m in re.finditer(r"(?m)^[ \t]*static\b[^;{]*?;", src):
            stmt = " ".join(m.group(0).split())
            # skip function definitions whose signature happens to contain no brace yet: they have '(' before ';' and no '='
            names, _ = decl_names(stmt.rstrip(";"))
            scope = "file"
            for a, b, fn in spans:
                if a <= m.start() < b:
                    scope = fn
                    break
            for n in names:
                inv.append((f, scope, n))
        # initialised aggregates: `static T name = { ... };` / `static T name[...] = { ... };` spanning braces
        for m in re.finditer(r"(?m)^[ \t]*static\b([^;{=]*?)=\s*\{", src):
            head = " ".join(m.group(1).split())
            toks = head.replace("*", " * ").split()
            if "const" in toks and "*" not in toks:
                continue
            mm = re.search(r"(\w+)\s*(\[[^\]]*\]\s*)*$", head)
            if not mm:
                continue
            scope = "file"
            for a, b, fn in spans:
                if a <= m.start() < b:
                    scope = fn
                    break
            inv.append((f, scope, mm.group(1)))
    # non-static file-scope variables
    for f, n in (("compileTranslationTable.c", None),):
        pass
    # non-static file-scope variables (definitions at column 0 with an initialiser or a plain `type name;')
    for f in FILES:
        src = source(repo, f)
        funcs = cparse.list_functions(src)
        spans = []
        pos = 0
        for fn, body in funcs:
            i = src.find(body, pos)
            if i >= 0:
                spans.append((i, i + len(body)))
                pos = i + len(body)
        for m in re.finditer(r"(?m)^(?:unsigned\s+|signed\s+)?(?:int|long|short|char|widechar|formtype|size_t)\s+\**(\w+)\s*(?:\[[^\]]*\])?\s*(?:=[^;{]*)?;", src):
            if any(a <= m.start() < b for a, b in spans):
                continue
            inv.append((f, "file", m.group(1)))
    inv = sorted(set(inv))
    out = [HEADER, "From Lou Require Import Gen.GConst.\n\n"]
    out.append("(* every non-const static / file-scope variable of the library: (file, scope, name) *)\n")
    out.append("Definition statics : list (string * string * string) := [\n")
    out.append(";\n".join("  (%s, %s, %s)" % (coq_string(a), coq_string(b), coq_string(c)) for a, b, c in inv))
    out.append("\n].\n\n")
    # getTable: the cache key comparison
    _, body = func(repo, "compileTranslationTable.c", "getTable")

    def key_cond(target, listname, lenname):
        found = []

        def visit(st):
            if st[0] == "if" and ("*%s = currentEntry->table;" % target) in show_stmt(st[2]) and "currentEntry" in cparse.show_c(st[1]):
                found.append(st[1])
        walk_stmts(body, visit)
        if len(found) != 1:
            raise cparse.ParseError("cache lookup for %s: %d candidates" % (target, len(found)))

        def pr(e):
            k = e[0]
            if k == "bin" and e[1] == "&&":
                return "(%s && %s)" % (pr(e[2]), pr(e[3]))
            if k == "bin" and e[1] == "||":
                return "(%s || %s)" % (pr(e[2]), pr(e[3]))
            if k == "bin" and e[1] in ("==", "!=", "<", "<=", ">", ">="):
                l, r = e[2], e[3]
                if l[0] == "call" and cparse.show_c(l[1]) == "memcmp" and cparse.show_c(r) == "0" and e[1] == "==":
                    args = [cparse.show_c(a) for a in l[2]]
                    if sorted(args[:2]) != sorted(["&currentEntry->tableList[0]", listname]):
                        raise cparse.ParseError("memcmp operands: %s" % args)
                    return "(common_prefix >=? %s)" % val(l[2][2])
                op = {"==": "=?", "<": "<?", "<=": "<=?", ">": ">?", ">=": ">=?"}.get(e[1])
                if op is None:
                    return "(negb (%s =? %s))" % (val(l), val(r))
                return "(%s %s %s)" % (val(l), op, val(r))
            raise cparse.ParseError("cache key condition: " + cparse.show_c(e))

        def val(e):
            t = cparse.show_c(e)
            if t == lenname:
                return "query_len"
            if t == "currentEntry->tableListLength":
                return "entry_len"
            if e[0] == "num":
                return str(e[1])
            if e[0] == "cast":
                return val(e[2])
            raise cparse.ParseError("cache key operand: " + t)
        return pr(found[0])

    out.append("(* getTable: a cached entry is used when this holds; common_prefix = number of leading bytes on which the\n   entry's list string and the queried one agree *)\n")
    out.append("Definition table_cache_hit (query_len entry_len common_prefix : Z) : bool := %s.\n"
               % key_cond("translationTable", "translationTableList", "translationTableListLen"))
    out.append("Definition display_cache_hit (query_len entry_len common_prefix : Z) : bool := %s.\n"
               % key_cond("displayTable", "displayTableList", "displayTableListLen"))
    txt = " ".join(show_stmt(s) for s in body)
    i_compile = txt.find("if (compileTable(")
    i_ins = txt.find("translationTableChain = newEntry;")
    i_else = txt.find("could not be compiled")
    ins_ok = 0 <= i_compile < i_ins < i_else and txt.count("translationTableChain = newEntry;") == 1 and txt.count("displayTableChain = newEntry;") == 1
    out.append("Definition cache_insert_only_after_successful_compile : bool := %s.\n" % ("true" if ins_ok else "false"))
    _, fbody = func(repo, "compileTranslationTable.c", "_lou_getTable")
    ftxt = " ".join(show_stmt(s) for s in fbody)
    out.append("Definition lookup_finalizes_table : bool := %s.\n" % ("true" if "if (newTable) if (!finalizeTable(newTable)) newTable = NULL;" in ftxt else "false"))
    # lou_free: every scratch pointer and size is reset
    _, body = func(repo, "compileTranslationTable.c", "lou_free")
    txt = " ".join(show_stmt(s) for s in body)
    resets = sorted(set(re.findall(r"(\w+(?:\[k\])?) = (?:NULL|0);", txt)))
    out.append("Definition free_resets : list string := [%s].\n" % "; ".join(coq_string(r.replace("[k]", "")) for r in resets))
    out.append(reset_facts(repo))
    out.append(direction_facts(repo))
    return "".join(out)


def direction_facts(repo):
    """translation_direction (pattern.c) selects the character or the cell table for attribute patterns: every main-pass
    function must set it, before its first loop, to its own direction"""
    out = ["\n(* main-pass functions that assign translation_direction: (file, function, value, before the first loop) *)\n"]
    rows = []
    for f in ("lou_translateString.c", "lou_backTranslateString.c"):
        src = source(repo, f)
        for fn, body in cparse.list_functions(src):
            ms = list(re.finditer(r"\btranslation_direction\s*=\s*(\d+)\s*;", body))
            for m in ms:
                j = min([x for x in (body.find("while"), body.find("for (")) if x >= 0] or [len(body)])
                rows.append((f, fn, int(m.group(1)), m.start() < j))
    out.append("Definition direction_assignments : list (string * string * Z * bool) := [%s].\n"
               % "; ".join("(%s, %s, %d, %s)" % (coq_string(a), coq_string(b), c, "true" if d else "false") for a, b, c, d in sorted(rows)))
    return "".join(out)


def reset_facts(repo):
    """per-call state that is reset explicitly: the multipass variables.  Declared extent, the extent of the reset,
    and which stage functions perform the reset before they execute pass instructions."""
    src = source(repo, "commonTranslationFunctions.c")
    m = re.search(r"static\s+(\w+)\s+passVariables\s*\[([^\]]+)\]\s*;", src)
    if not m:
        raise cparse.ParseError("declaration of passVariables not recognised")
    elem = {"int": 4, "unsigned": 4, "short": 2, "char": 1, "long": 8, "widechar": 2}.get(m.group(1))
    if elem is None:
        raise cparse.ParseError("element type of passVariables: " + m.group(1))
    to = cparse.ToZ({"sizeof(passVariables[0])": "passvars_elem_bytes", "sizeof(passVariables)": "(passvars_elem_bytes * passvars_count)",
                     "sizeof(int)": "4", "sizeof(*passVariables)": "passvars_elem_bytes", "NUMVAR": "NUMVAR"})
    count = to.z(cparse.parse_expr(m.group(2)))
    _, body = func(repo, "commonTranslationFunctions.c", "_lou_resetPassVariables")
    found = []

    def visit(st):
        for e in stmt_exprs(st):
            def f(x):
                if x[0] == "call" and cparse.show_c(x[1]) == "memset" and cparse.show_c(x[2][0]) in ("passVariables", "&passVariables[0]", "&passVariables"):
                    found.append(x)
            walk_expr(e, f)
    walk_stmts(body, visit)
    if len(found) == 1 and cparse.show_c(found[0][2][1]) == "0":
        reset = to.z(found[0][2][2])
    else:
        # a loop `for (k = 0; k < N; k++) passVariables[k] = 0;'
        txt = " ".join(show_stmt(s) for s in body)
        mm = re.search(r"for \((?:int )?(\w+) = 0; \1 < ([^;]+); \1\+\+\) passVariables\[\1\] = 0;", txt)
        if not mm:
            raise cparse.ParseError("_lou_resetPassVariables: reset not recognised: " + txt[:200])
        reset = "(passvars_elem_bytes * %s)" % to.z(cparse.parse_expr(mm.group(2)))
    out = ["\n(* multipass variables: declared extent, extent cleared by _lou_resetPassVariables (bytes) *)\n"]
    out.append("Definition passvars_elem_bytes : Z := %d.\n" % elem)
    out.append("Definition passvars_count : Z := %s.\n" % count)
    out.append("Definition passvars_reset_bytes : Z := %s.\n" % reset)
    # stage functions: those from which a pass-variable test/action can be reached must reset first
    users, resetters = [], []
    for f in ("lou_translateString.c", "lou_backTranslateString.c"):
        src = source(repo, f)
        for fn, body in cparse.list_functions(src):
            if re.search(r"\b_lou_resetPassVariables\s*\(\s*\)", body):
                # the reset must come before the first loop of the function
                i = body.find("_lou_resetPassVariables")
                j = min([x for x in (body.find("while"), body.find("for (")) if x >= 0] or [len(body)])
                resetters.append((f, fn, i < j))
            if re.search(r"\b_lou_handlePassVariable(Test|Action)\s*\(", body):
                users.append((f, fn))
    out.append("(* functions that reset the variables, and whether the reset precedes their first loop *)\n")
    out.append("Definition passvars_resetters : list (string * string * bool) := [%s].\n"
               % "; ".join("(%s, %s, %s)" % (coq_string(a), coq_string(b), "true" if c else "false") for a, b, c in sorted(resetters)))
    out.append("(* functions that read or write them *)\n")
    out.append("Definition passvars_users : list (string * string) := [%s].\n"
               % "; ".join("(%s, %s)" % (coq_string(a), coq_string(b)) for a, b in sorted(users)))
    return "".join(out)
