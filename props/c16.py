"""C16 — translation depends only on the sequence of table entries, not their packaging.
PROVE: Properties/C16.v (reader laws: CR ignored, UTF-16 = 8-bit for ASCII, whitespace, dot order, \\xhhhh escapes).
CORRESPOND: (1) the reader itself: _lou_getALine / _lou_extParseDots / _lou_extParseChars vs the extracted Reader model on
 random and mutated byte contents; (2) packaging variants of generated tables and shipped lists (LF/CRLF, blank and comment
 lines, trailing whitespace, UTF-16LE/BE with BOM, list vs include wrapper vs concatenation, escapes, permuted dots) must
 translate identically in both directions."""
import os
import shutil

import common
import safety
import tablegen
import trans
from common import Rng, REPO

PID = "C16"


def variants_text(text, r):
    """packaging variants of one table text (ASCII)"""
    v = {}
    v["lf"] = text
    v["crlf"] = text.replace("\n", "\r\n")
    lines = text.split("\n")
    noisy = []
    for ln in lines:
        if r.chance(0.3):
            noisy.append(r.choice(["", "# a comment", "   ", "\t", "#", "# letter a 1"]))
        noisy.append(ln + (r.choice(["  ", "\t", " \t "]) if ln and r.chance(0.5) else ""))
    v["noise"] = "\n".join(noisy)
    v["spaces"] = "\n".join(("  " if ln and r.chance(0.3) else "") + ln.replace(" ", r.choice(["  ", " \t", "\t"])) for ln in lines)
    return v


def escape_variant(entries, rules, r):
    """characters as \\xhhhh, dots of a cell in another order"""
    out = []
    for e in entries:
        pre = ("nofor " if e.nofor else "") + ("noback " if e.noback else "")
        if e.dots is None:
            d = "="
        else:
            cells = []
            for x in e.dots:
                ds = [c for c in tablegen.dots_text(x)]
                r.shuffle(ds)
                cells.append("".join(ds))
            d = "-".join(cells)
        if e.op == "numsign":
            out.append(pre + "numsign " + d)
            continue
        cs = "".join("\\x%04x" % c if (r.chance(0.6) or c == 32) else tablegen.char_text(c) for c in e.chars)
        out.append("%s%s %s %s" % (pre, e.op, cs, d))
    return "\n".join(out) + "\n" + "".join(x.text() + "\n" for x in rules)


def write_variant(path, text, enc):
    if enc == "utf16le":
        path.write_bytes(b"\xff\xfe" + text.encode("utf-16-le"))
    elif enc == "utf16be":
        path.write_bytes(b"\xfe\xff" + text.encode("utf-16-be"))
    else:
        path.write_bytes(text.encode("latin-1"))


def run(chk):
    rng = Rng(chk.seed).fork(PID)
    gen = common.gen_stage()
    prove = common.prove_stage(PID)
    drv = common.model_driver()
    exe = common.build_harness("h_trans")
    rdr = common.build_harness("h_reader")
    env = {"LOUIS_TABLEPATH": str(REPO / "tables")}
    quick = chk.tier == "quick"
    work = common.BUILD / ("work-c16-%d" % os.getpid())
    shutil.rmtree(work, ignore_errors=True)
    work.mkdir(parents=True)

    # ---- (1) reader correspondence
    files, clines, mlines = [], [], []
    for i in range(120 if quick else 3000):
        r = rng.fork(("rd", i))
        k = r.below(6)
        if k == 0:
            data = bytes(r.range(0, 255) for _ in range(r.range(0, 60)))
        elif k == 1:
            data = "".join(r.choice(["letter a 1", "always ab 12", "", "# c", "\r", "x" * r.range(2040, 2060)]) + r.choice(["\n", "\r\n", "\n\n"]) for _ in range(r.range(1, 6))).encode()
        elif k == 2:
            data = b"\xff\xfe" + "".join(r.choice("ab 1\n\r") for _ in range(r.range(0, 40))).encode("utf-16-le") + (b"x" if r.chance(0.3) else b"")
        elif k == 3:
            data = b"\xfe\xff" + "".join(r.choice("ab 1\n\r") for _ in range(r.range(0, 40))).encode("utf-16-be")
        elif k == 4:
            data = bytes(r.choice([10, 13, 32, 97, 98, 35]) for _ in range(r.range(0, 50)))
        else:
            data = bytes([r.range(0, 255)]) * r.range(0, 3)
        p = work / ("r%d.bin" % i)
        p.write_bytes(data)
        files.append((p, data))
        clines.append("L %s" % p)
        mlines.append("RL " + " ".join(str(b) for b in data))
    toks = []
    ntok = 300 if quick else 5000
    for i in range(ntok):
        r = rng.fork(("tok", i))
        # all dot tokens first: _lou_extParseChars leaves the compiler's error counter set, which makes a
        # following _lou_extParseDots report failure (internal tool hooks, not part of the public API)
        if i < ntok // 2:
            t = "".join(r.choice("1234567890abcdefABCDEF--") for _ in range(r.range(1, 10)))
            clines.append("D " + t)
            mlines.append("RD " + " ".join(str(ord(c)) for c in t))
        else:
            t = "".join(r.choice(["a", "b", "Z", "\\\\", "\\s", "\\t", "\\x0061", "\\x28ff", "\\x00", "\\e", "\\w", "é", "€", "\\n", "1"]) for _ in range(r.range(1, 8)))
            clines.append("P " + t)
            mlines.append("RP " + " ".join(str(b) for b in t.encode("utf-8")))
        toks.append(t)
    co = common.run_stream(rdr, [], [l.encode("utf-8", "surrogateescape").decode("latin-1") if False else l for l in clines], env=env, timeout=300)
    mo = common.run_model(drv, mlines)
    for cl, c, m in zip(clines, co, mo):
        chk.count(("reader", cl), nontrivial=not isinstance(c, tuple) and len(c) > 6)
        chk.tally("reader_" + cl[0])
        if isinstance(c, tuple):
            chk.violation("reader-crash", "reader harness died on %s: %s" % (cl[:60], c[1][:200]), dict(command=cl))
            continue
        if cl[0] == "P" and m == "P NONE":
            chk.tally("reader_P_outside_model")
            continue
        cm = m.replace(" badencoding", "")
        if c.strip() != cm.strip():
            chk.violation("reader-mismatch:" + cl[0], "the reader differs from Model/Reader on %s: impl %s model %s" % (cl[:80], c[:200], m[:200]),
                          dict(command=cl, file_bytes=list(open(cl[2:], "rb").read()) if cl[0] == "L" else None, impl=c[:2000], model=m[:2000]))
        else:
            chk.cov["traces_validated_against_impl"] += 1

    # ---- (2) packaging variants of generated tables
    for ti in range(60 if quick else 1500):
        r = rng.fork(("t", ti))
        if r.chance(0.5):
            entries, alphabet = tablegen.gen_c05_table(r)
            rules = []
        else:
            entries, rules, letters = tablegen.gen_c06_table(r, directions=("noback", "nofor"))
            alphabet = letters + [32]
        alphabet = [c for c in alphabet if c < 128]
        entries = [e for e in entries if all(c < 128 for c in e.chars)]
        if not any(e.chars == [32] for e in entries):
            entries.insert(0, tablegen.Entry("space", [32], [0]))
        text = tablegen.pass_table_text(entries, rules)
        # rules whose effect depends on which of two rules for one character was declared first (a definition and a `base'
        # rule for the same capital): declaration order must mean the order of the entries, wherever the files are cut
        lows = [e.chars[0] for e in entries if len(e.chars) == 1 and 97 <= e.chars[0] <= 122]
        esc_lines = [l for l in escape_variant(entries, rules, r).split("\n") if l]
        if lows and r.chance(0.6) and len(esc_lines) == len([l for l in text.split("\n") if l]):
            tl_ = [l for l in text.split("\n") if l]
            for lc in r.sample(lows, min(len(lows), r.range(1, 2))):
                at = max(i for i, l in enumerate(tl_) if l.split()[1:2] == [chr(lc)]) + 1
                extra = ["uppercase %s %s" % (chr(lc - 32), tablegen.dots_text(r.range(1, 255))), "base uppercase %s %s" % (chr(lc - 32), chr(lc))]
                r.shuffle(extra)
                # what makes the choice visible: a contraction that a based capital matches case-insensitively, a caps sign
                other = r.choice(lows)
                vis = ["always %s%s %s" % (chr(lc), chr(other), tablegen.dots_text(r.range(1, 63))), "capsletter 6"]
                for x in vis:
                    k = len(tl_)
                    tl_.insert(k, x)
                    esc_lines.insert(k, x)
                for x in extra:
                    k = r.range(at, len(tl_))
                    tl_.insert(k, x)
                    esc_lines.insert(k, x)
                alphabet = alphabet + [lc - 32, lc - 32]
            text = "\n".join(tl_) + "\n"
            chk.tally("tables_with_definition_and_base_rule_for_one_character")
        d = work / ("t%d" % ti)
        d.mkdir()
        names = {}
        for vname, vtext in variants_text(text, r).items():
            write_variant(d / (vname + ".utb"), vtext, "ascii")
            names[vname] = str(d / (vname + ".utb"))
        write_variant(d / "u16le.utb", text, "utf16le")
        write_variant(d / "u16be.utb", text, "utf16be")
        write_variant(d / "escaped.utb", "\n".join(esc_lines) + "\n", "ascii")
        names.update(u16le=str(d / "u16le.utb"), u16be=str(d / "u16be.utb"), escaped=str(d / "escaped.utb"))
        # split into two files: list, include wrapper
        lines = [l for l in text.split("\n") if l]
        cut = r.range(1, max(1, len(lines) - 1))
        # '=' rules and pass rules need their characters defined earlier: keep the order, cut anywhere
        (d / "p1.utb").write_text("\n".join(lines[:cut]) + "\n")
        (d / "p2.utb").write_text("\n".join(lines[cut:]) + "\n")
        (d / "wrap.utb").write_text("include p1.utb\ninclude p2.utb\n")
        names["list"] = "%s,%s" % (d / "p1.utb", d / "p2.utb")
        names["wrapper"] = str(d / "wrap.utb")
        # the operand of include is a string like any other: a character of the file name spelled as an escape, a blank as \s
        (d / "p 3.utb").write_text("\n".join(lines[cut:]) + "\n")
        k = r.range(0, 1)
        (d / "wrapesc.utb").write_text("include %s\\x%04x%s\ninclude p\\s3.utb\n" % ("p1.utb"[:k], ord("p1.utb"[k]), "p1.utb"[k + 1:]))
        names["wrapper_escaped_names"] = str(d / "wrapesc.utb")
        cases = []
        for _ in range(10 if quick else 40):
            inp = [r.choice(alphabet) for _ in range(r.range(1, 14))]
            cases.append(trans.case_line("T", r.choice([4, 0, 1]), inp, 6 * len(inp) + 10, presence=12))
            cases.append(trans.case_line("B", 4, [0x8000 | r.range(0, 63) for _ in range(r.range(1, 10))], 50, presence=12))
        ref = None
        for vname, tl in names.items():
            rs = trans.run_cases(exe, tl, cases, exact=1, env=env, timeout=300)
            sigs = [("CRASH",) if x.crash else (x.ret, x.inlen, x.outlen, tuple(x.out[:max(x.outlen, 0)]), tuple(x.inputPos[:max(x.outlen, 0)])) for x in rs]
            chk.count((text, vname), nontrivial=any(s[0] == 1 for s in sigs), n=len(cases))
            chk.tally("variant_" + vname)
            if ref is None:
                ref = sigs
                continue
            bad = [(c, a, b) for c, a, b in zip(cases, ref, sigs) if a != b]
            if bad:
                chk.violation("packaging:" + vname, "variant '%s' translates differently from the plain file: %s vs %s on %s"
                              % (vname, str(bad[0][1])[:150], str(bad[0][2])[:150], bad[0][0][:80]),
                              dict(table=text, variant=vname, variant_text=open(tl.split(",")[0], "rb").read().decode("latin-1")[:3000], case_line=bad[0][0]))
            else:
                chk.cov["traces_validated_against_impl"] += len(cases)
    # ---- (3) shipped lists: list vs include wrapper vs CRLF copy
    shipped = ["en-us-g2.ctb", "en-ueb-g2.ctb", "de-g2.ctb", "fr-bfu-g2.ctb", "cs-g1.ctb", "en-us-comp8.ctb", "nl-NL-g0.utb", "da-dk-g26.ctb"]
    for t in shipped[: (4 if quick else 8)]:
        src = REPO / "tables" / t
        if not src.exists():
            continue
        r = rng.fork(("sh", t))
        (work / ("wrap_" + t)).write_text("include %s\n" % src)
        crlf = work / ("crlf_" + t)
        crlf.write_bytes(src.read_bytes().replace(b"\r\n", b"\n").replace(b"\n", b"\r\n"))
        # the CRLF copy must find its includes: keep it next to the originals via a list entry using the search path
        cases = [trans.case_line("T", r.choice([0, 4]), [c for c in safety.gen_input(r, 30) if c] or [97], 150, presence=12) for _ in range(15)]
        ref = None
        for vname, tl in (("plain", str(src)), ("wrapper", str(work / ("wrap_" + t))), ("crlf", str(crlf)), ("list_with_empty_file", None)):
            if tl is None:
                (work / "empty.utb").write_text("# nothing\n\n")
                tl = "%s,%s" % (src, work / "empty.utb")
            rs = trans.run_cases(exe, tl, cases, exact=1, env=env, timeout=600)
            sigs = [("CRASH",) if x.crash else (x.ret, x.inlen, x.outlen, tuple(x.out[:max(x.outlen, 0)])) for x in rs]
            chk.count((t, vname), nontrivial=True, n=len(cases))
            if ref is None:
                ref = sigs
            elif sigs != ref:
                chk.violation("packaging-shipped:" + vname, "shipped table %s as '%s' translates differently" % (t, vname), dict(table=t, variant=vname))
            else:
                chk.cov["traces_validated_against_impl"] += len(cases)
    shutil.rmtree(work, ignore_errors=True)
    chk.cov["rule"] = ("(1) random / mutated byte files through _lou_getALine and tokens through _lou_extParseDots / _lou_extParseChars vs the reader "
                       "model; (2) generated tables (F and multipass) in 11 packagings (LF, CRLF, noise lines + trailing blanks, extra spaces, "
                       "UTF-16LE/BE with BOM, \\\\xhhhh escapes + permuted dots, two-file list, include wrapper) x forward and backward cases; "
                       "(3) shipped tables as plain / wrapper / CRLF copy / list with an empty member; distinct = (table, variant)")
    chk.cov["gen_status"] = gen
    chk.cov["checker_cmd"] = "make -C coq Properties/C16.vo (coqc 8.16.1)"
    chk.cov["trusted_base"] = common.TRUSTED_COMMON + ["the fold of entries over files (compileFile/includeFile) is compared behaviourally, not modelled"]
    if not prove["ok"] and not chk.violations:
        chk.violation("proof", "Properties/%s.v no longer checks: %s" % (PID, prove["failed"][:5]),
                      dict(no_failing_input=True, broken=prove["failed"], log=prove["log"][-1500:], gen=gen))
    return chk.finish(prove)
