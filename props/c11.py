"""C11 — one-to-one tables round-trip exactly.
PROVE: Properties/C11.v (one_to_one t -> back (forward s) = s and forward (back cells) = cells on the models; display maps invert).
CORRESPOND: generated single-cell definition tables (injective: round trips on the real library in dotsIO mode; also
 non-injective ones to validate the first-definition-wins rules of both directions against the models)."""
import os
import shutil

import common
import tablegen
import trans
from common import Rng, REPO

PID = "C11"


def run(chk):
    rng = Rng(chk.seed).fork(PID)
    gen = common.gen_stage()
    prove = common.prove_stage(PID)
    drv = common.model_driver()
    exe = common.build_harness("h_trans")
    env = {"LOUIS_TABLEPATH": str(REPO / "tables")}
    quick = chk.tier == "quick"
    work = common.BUILD / ("work-c11-%d" % os.getpid())
    shutil.rmtree(work, ignore_errors=True)
    work.mkdir(parents=True)
    ntab = 150 if quick else 5000
    for ti in range(ntab):
        r = rng.fork(("t", ti))
        inj = r.chance(0.75)
        entries = tablegen.gen_defs_table(r, injective=inj, big=r.chance(0.1))
        ttext = tablegen.table_text(entries)
        tf = work / ("t%d.utb" % ti)
        tf.write_text(ttext)
        chars = [e.chars[0] for e in entries]
        cells = [e.dots[0] | 0x8000 for e in entries]
        strings = [[r.choice(chars) for _ in range(r.range(1, 30))] for _ in range(30 if quick else 150)]
        strings.append(list(dict.fromkeys(chars))[:200])
        # model side
        ml = tablegen.model_table_lines(entries) + ["OO"] + ["TR 4 %d %s" % (4 * len(s) + 8, " ".join(map(str, s))) for s in strings]
        mo = common.run_model(drv, ml)
        oo = mo[0].split()
        model_121 = oo[1] == "1"
        chk.tally("tables_one_to_one" if model_121 else "tables_not_one_to_one")
        flines = [trans.case_line("T", 4, s, 4 * len(s) + 8, presence=12) for s in strings]
        fr = trans.run_cases(exe, str(tf), flines, exact=1, env=env, timeout=400)
        blines, bidx = [], []
        for j, (s, res, m) in enumerate(zip(strings, fr, mo[1:])):
            key = (ttext, tuple(s))
            if res.crash or res.hang is not None or res.ret != 1:
                chk.count(key)
                chk.violation("forward-failed", "forward translation failed on a definitions-only table: %s" % (res.crash or res.raw[:100],),
                              dict(table=ttext, input=s, case_line=flines[j]))
                continue
            mcells = [int(x) for x in m.split("|")[1].split()] if "|" in m else None
            if mcells is None or res.out[:res.outlen] != mcells or res.inlen != len(s):
                chk.count(key)
                chk.violation("forward-mismatch", "forward differs from the model on a definitions-only table: impl %s model %s" % (res.out[:res.outlen], m),
                              dict(table=ttext, input=s, case_line=flines[j], model=m))
                continue
            cap = r.choice([len(mcells) + 5, len(mcells), max(1, len(mcells) - r.range(1, 3))]) if r.chance(0.3) else len(mcells) + 5
            blines.append(trans.case_line("B", 4, mcells, cap, presence=12))
            bidx.append((j, cap, mcells))
        bml = tablegen.model_table_lines(entries) + ["BK %d %s" % (cap, " ".join(map(str, mc))) for j, cap, mc in bidx]
        bmo = common.run_model(drv, bml) if bidx else []
        br = trans.run_cases(exe, str(tf), blines, exact=1, env=env, timeout=400) if blines else []
        for (j, cap, mcells), res, m, ln in zip(bidx, br, bmo, blines):
            s = strings[j]
            key = (ttext, tuple(s), cap)
            chk.count(key, nontrivial=model_121 and len(s) > 1)
            if res.crash or res.hang is not None or res.ret != 1:
                chk.violation("backward-failed", "back-translation failed: %s" % (res.crash or res.raw[:100],), dict(table=ttext, cells=mcells, case_line=ln))
                continue
            if not m.startswith("B ") or "|" not in m:
                chk.tally("backward_outside_model")
                continue
            parts = [p.strip() for p in m[2:].split("|")]
            mcons, mchars, mpm = int(parts[0]), [int(x) for x in parts[1].split()], [int(x) for x in parts[2].split()]
            ok = res.inlen == mcons and res.out[:res.outlen] == mchars and (res.rawmap is None or res.rawmap[3][:mcons] == mpm[:mcons])
            if mcons > len(mpm):
                chk.tally("trailing_blanks_skipped_after_capacity_failure")
            if not ok:
                chk.violation("backward-mismatch", "back-translation differs from the model: impl (%d, %s) model %s" % (res.inlen, res.out[:res.outlen], m),
                              dict(table=ttext, cells=mcells, capacity=cap, case_line=ln, model=m, impl=res.raw))
                continue
            if model_121 and cap >= len(mcells):
                if res.out[:res.outlen] != s:
                    chk.violation("round-trip", "one-to-one table does not round-trip: %s -> %s -> %s" % (s, mcells, res.out[:res.outlen]),
                                  dict(table=ttext, input=s, cells=mcells, case_line=ln))
                    continue
                if res.inputPos[:res.outlen] != list(range(res.outlen)) or res.outputPos[:res.inlen] != list(range(res.inlen)):
                    chk.violation("identity-maps", "one cell per character but the position maps are not the identity: %s %s"
                                  % (res.inputPos[:res.outlen], res.outputPos[:res.inlen]), dict(table=ttext, cells=mcells, case_line=ln))
                    continue
            chk.cov["traces_validated_against_impl"] += 1
            if model_121 and len(s) > 3:
                chk.sample(dict(table_entries=len(entries), input=s[:12], cells=mcells[:12]), cap=3)
        # the same round trip at the API level in the other output modes (characters of the display table, Unicode braille
        # requested with and without dotsIO, noUndefined): back(forward(s)) = s and forward(back(forward(s))) = forward(s)
        if model_121:
            # Unicode braille keeps dots 1-8 only: with virtual dots (9-f) in a cell the table is not one-to-one in that form
            plain8 = all((c & 0x7f00) == 0 for c in cells)
            for mode in ((0, 64, 64 | 128, 4 | 64, 128) if plain8 else (0, 64, 64 | 128, 128)):
                sub = strings[:6] + strings[-1:]
                f1 = trans.run_cases(exe, str(tf), [trans.case_line("T", mode, x, 4 * len(x) + 8, presence=12) for x in sub], exact=1, env=env, timeout=300)
                okf = [(x, a) for x, a in zip(sub, f1) if not a.crash and a.hang is None and a.ret == 1]
                b1 = trans.run_cases(exe, str(tf), [trans.case_line("B", mode, a.out[:a.outlen], 4 * a.outlen + 8, presence=12) for x, a in okf], exact=1, env=env, timeout=300)
                f2 = trans.run_cases(exe, str(tf), [trans.case_line("T", mode, b.out[:max(b.outlen, 0)] or [32], 4 * len(x) + 8, presence=12) for (x, a), b in zip(okf, b1)],
                                     exact=1, env=env, timeout=300)
                for (x, a), b, c in zip(okf, b1, f2):
                    chk.count((ttext, tuple(x), "mode", mode), nontrivial=len(x) > 1)
                    chk.tally("round_trip_mode_%d" % mode)
                    if b.crash or b.ret != 1 or b.out[:b.outlen] != x or c.crash or c.ret != 1 or c.out[:c.outlen] != a.out[:a.outlen]:
                        chk.violation("round-trip-mode", "one-to-one table does not round-trip in mode %d: %s -> %s -> %s -> %s" % (
                            mode, x, a.out[:a.outlen], None if b.crash else b.out[:b.outlen], None if c.crash else c.out[:c.outlen]),
                            dict(table=ttext, input=x, mode=mode))
                        break
                    chk.cov["traces_validated_against_impl"] += 1
                if len(okf) != len(sub):
                    chk.violation("forward-failed", "forward translation failed in mode %d on a definitions-only table" % mode, dict(table=ttext, mode=mode))
        # display maps: lou_charToDots then lou_dotsToChar over the table's characters
        uniq = list(dict.fromkeys(chars))[:300]
        dl = [trans.case_line("C", 0, uniq, len(uniq))]
        dr = trans.run_cases(exe, str(tf), dl, exact=1, env=env)
        if not dr[0].crash and dr[0].ret == 1:
            d2 = trans.run_cases(exe, str(tf), [trans.case_line("D", 0, dr[0].out[:len(uniq)], len(uniq)),
                                                 trans.case_line("C", 64, uniq, len(uniq))], exact=1, env=env)
            chk.count((ttext, "display"), nontrivial=model_121)
            if model_121 and not d2[0].crash:
                if d2[0].out[:len(uniq)] != uniq:
                    chk.violation("display-round-trip", "lou_dotsToChar(lou_charToDots(c)) != c on a one-to-one table", dict(table=ttext, chars=uniq))
                elif all((c & 0x7f00) == 0 for c in dr[0].out[:len(uniq)]):
                    d3 = trans.run_cases(exe, str(tf), [trans.case_line("D", 0, d2[1].out[:len(uniq)], len(uniq))], exact=1, env=env)
                    if d3[0].crash or d3[0].out[:len(uniq)] != uniq:
                        chk.violation("display-round-trip-unicode", "lou_dotsToChar(lou_charToDots(c, ucBrl)) != c", dict(table=ttext, chars=uniq))
                    else:
                        chk.cov["traces_validated_against_impl"] += 1
                else:
                    chk.cov["traces_validated_against_impl"] += 1
    shutil.rmtree(work, ignore_errors=True)
    chk.cov["rule"] = ("generated tables of single-cell character definitions (2-400 characters incl. same-bucket characters and cells, 6/8/15-dot "
                       "cells; 75% injective, others with a cell or character defined twice) x random strings over the table's characters + "
                       "the whole alphabet; forward (dotsIO) then backward with capacities at and below the length; display conversions; "
                       "distinct = (table, string, capacity); non-trivial = one-to-one table and more than one character")
    chk.cov["gen_status"] = gen
    chk.cov["checker_cmd"] = "make -C coq Properties/C11.vo (coqc 8.16.1)"
    chk.cov["trusted_base"] = common.TRUSTED_COMMON + ["shipped tables are not covered here (no structural bijectivity test on compiled images yet)"]
    if not prove["ok"] and not chk.violations:
        chk.violation("proof", "Properties/%s.v no longer checks: %s" % (PID, prove["failed"][:5]),
                      dict(no_failing_input=True, broken=prove["failed"], log=prove["log"][-1500:], gen=gen))
    return chk.finish(prove)
