(* C07, layer B: the position map built by the main loop (Model/Engine.v), for an arbitrary
   selection function: every entry is an input position in [0, n) and the map is ordered.   *)
From Coq Require Import List ZArith Bool Lia ZifyBool.
From Lou Require Import Gen.GConst Gen.GChain Model.Table Model.Ref Model.Compile Model.Engine.
From Lou Require Import Proofs.EngineLoop.
Import ListNotations.
Local Open Scope Z_scope.

(* most recent first: every entry is in [0, N), at most ub, and the entries descend *)
Fixpoint okl (N ub : Z) (l : list Z) : Prop :=
  match l with
  | [] => True
  | x :: l' => 0 <= x <= ub /\ x < N /\ okl N x l'
  end.

Lemma okl_weaken N ub ub' l : okl N ub l -> ub <= ub' -> okl N ub' l.
Proof.
  destruct l as [|x l]; cbn [okl]; [tauto|]. intros (H1 & H2 & H3) Hu.
  split; [lia|]. split; assumption.
Qed.

Lemma okl_repeat N p l k : okl N p l -> 0 <= p < N -> okl N p (repeat p k ++ l).
Proof.
  intros Hl Hp. induction k as [|k IH]; cbn [repeat app]; [exact Hl|].
  cbn [okl]. split; [lia|]. split; [lia|exact IH].
Qed.

Lemma okl_forall N ub l : okl N ub l -> Forall (fun x => 0 <= x < N) l.
Proof.
  revert ub. induction l as [|x l IH]; intros ub; cbn [okl]; [constructor|].
  intros (H1 & H2 & H3). constructor; [lia|]. exact (IH x H3).
Qed.

Lemma okl_nth_le N l : forall ub j, okl N ub l -> (j < length l)%nat -> nth j l 0 <= ub.
Proof.
  induction l as [|x l IH]; intros ub j; cbn [okl length]; [lia|].
  intros (H1 & H2 & H3) Hj. destruct j as [|j]; cbn [nth]; [lia|].
  specialize (IH x j H3). lia.
Qed.

Lemma okl_desc N l : forall ub i j, okl N ub l -> (i <= j)%nat -> (j < length l)%nat ->
  nth j l 0 <= nth i l 0.
Proof.
  induction l as [|x l IH]; intros ub i j; cbn [okl length]; [lia|].
  intros (H1 & H2 & H3) Hij Hj.
  destruct i as [|i]; destruct j as [|j]; cbn [nth]; try lia.
  - apply (okl_nth_le N l x j H3). lia.
  - apply (IH x i j H3); lia.
Qed.

(* ------------------------------------------------------------------ the invariant *)

Definition PInv (inp : list Z) (s : tstate) : Prop :=
  0 <= ts_pos s /\ okl (n inp) (ts_pos s) (ts_pm s).

Lemma word_mark_pinv t inp s : PInv inp s -> PInv inp (word_mark t inp s).
Proof.
  unfold word_mark, PInv. destruct (_ && _); [|tauto]. cbn [ts_pos ts_pm]. tauto.
Qed.

Lemma emit_pinv inp cap s d k s' : PInv inp s -> ts_pos s < n inp ->
  emit inp cap s d k = Some s' -> PInv inp s'.
Proof.
  unfold emit, PInv. destruct (_ || _); [discriminate|].
  intros (Hp & Hl) Hn He. injection He as <-. cbn [ts_pos ts_pm].
  split; [exact Hp|]. apply okl_repeat; [exact Hl|lia].
Qed.

Lemma advance_pinv inp s k : PInv inp s -> 0 <= k -> PInv inp (advance s k).
Proof.
  unfold PInv, advance. cbn [ts_pos ts_pm]. intros (Hp & Hl) Hk.
  split; [lia|]. apply (okl_weaken _ _ _ _ Hl). lia.
Qed.

Lemma numsign_emit_pinv t inp cap pos s0 s1 : PInv inp s0 -> ts_pos s0 < n inp ->
  numsign_emit t inp cap pos s0 = Some s1 -> PInv inp s1.
Proof.
  intros Hi Hn. unfold numsign_emit. destruct (numsign t) as [nd|].
  - destruct (_ && _).
    + apply emit_pinv; assumption.
    + intros H. injection H as <-. exact Hi.
  - intros H. injection H as <-. exact Hi.
Qed.

Lemma with_trace_pinv inp idx s : PInv inp s -> PInv inp (with_trace idx s).
Proof. unfold PInv, with_trace. cbn [ts_pos ts_pm]. tauto. Qed.

Lemma put_chars_pinv t inp cap k : forall s s', PInv inp s -> ts_pos s < n inp ->
  put_chars t inp cap k s = Some (Some s') -> PInv inp s'.
Proof.
  induction k as [|k IH]; intros s s' Hi Hn; cbn [put_chars].
  - intros H. injection H as <-. exact Hi.
  - destruct (def_dots t (nth_z inp (ts_pos s))) as [d|]; [|discriminate].
    destruct (emit inp cap s d 1) as [s1|] eqn:Ee; [|discriminate].
    assert (Hi1 : PInv inp (advance s1 1)).
    { apply advance_pinv; [exact (emit_pinv _ _ _ _ _ _ Hi Hn Ee)|lia]. }
    destruct (ts_pos (advance s1 1) >=? n inp) eqn:Eg.
    + intros H. injection H as <-. exact Hi1.
    + apply IH; [exact Hi1|lia].
Qed.

Lemma put_chars_partial_pinv t inp cap k : forall s, PInv inp s -> ts_pos s < n inp ->
  PInv inp (put_chars_partial t inp cap k s).
Proof.
  induction k as [|k IH]; intros s Hi Hn; cbn [put_chars_partial]; [exact Hi|].
  destruct (def_dots t (nth_z inp (ts_pos s))) as [d|]; [|exact Hi].
  destruct (emit inp cap s d 1) as [s1|] eqn:Ee; [|exact Hi].
  assert (Hi1 : PInv inp (advance s1 1)).
  { apply advance_pinv; [exact (emit_pinv _ _ _ _ _ _ Hi Hn Ee)|lia]. }
  destruct (ts_pos (advance s1 1) >=? n inp) eqn:Eg; [exact Hi1|apply IH; [exact Hi1|lia]].
Qed.

Lemma apply_rule_pinv t inp cap s2 e : PInv inp s2 -> ts_pos s2 < n inp ->
  match apply_rule t inp cap s2 e with
  | Next s' => PInv inp s'
  | Fail s' => PInv inp s'
  | Unsupported => True
  end.
Proof.
  intros Hi Hn. unfold apply_rule. destruct (e_dots e) as [|d0 dr].
  - destruct (put_chars t inp cap (Z.to_nat (len (e_chars e))) s2) as [[s3|]|] eqn:Ep.
    + exact (put_chars_pinv _ _ _ _ _ _ Hi Hn Ep).
    + apply put_chars_partial_pinv; assumption.
    + exact I.
  - destruct (emit inp cap s2 (d0 :: dr) (len (e_chars e))) as [s3|] eqn:Ee; [|exact Hi].
    apply advance_pinv; [exact (emit_pinv _ _ _ _ _ _ Hi Hn Ee)|unfold len; lia].
Qed.

Lemma step_pinv t sel inp cap s : PInv inp s -> ts_pos s < n inp ->
  match step t sel inp cap s with
  | Next s' => PInv inp s'
  | Fail s' => PInv inp s'
  | Unsupported => True
  end.
Proof.
  intros Hi Hn. rewrite step_unfold.
  destruct (sel inp (ts_pos s)) as [[idx e]|]; [|exact I].
  assert (Hw := word_mark_pinv t inp s Hi).
  assert (Hwn : ts_pos (word_mark t inp s) < n inp) by (rewrite word_mark_pos; exact Hn).
  destruct (numsign_emit t inp cap (ts_pos s) (word_mark t inp s)) as [s1|] eqn:En; [|exact Hw].
  apply apply_rule_pinv.
  - apply with_trace_pinv. exact (numsign_emit_pinv _ _ _ _ _ _ Hw Hwn En).
  - cbn [with_trace ts_pos]. rewrite (numsign_emit_pos _ _ _ _ _ _ En). exact Hwn.
Qed.

(* ------------------------------------------------------------------ the result *)

Definition pm_ok (inp : list Z) (pm : list Z) : Prop :=
  Forall (fun x => 0 <= x < len inp) pm /\
  (forall i j, (i <= j)%nat -> (j < length pm)%nat -> nth i pm 0 <= nth j pm 0).

Definition res_pm_ok (inp : list Z) (r : tresult) : Prop :=
  match r with
  | TOk _ _ pm _ => pm_ok inp pm
  | _ => True
  end.

Lemma Forall_firstn_Z (P : Z -> Prop) (l : list Z) : forall k, Forall P l -> Forall P (firstn k l).
Proof.
  induction l as [|x l IH]; intros [|k] Hf; cbn [firstn]; try constructor.
  - inversion Hf; assumption.
  - apply IH. inversion Hf; assumption.
Qed.

Lemma nth_firstn_ltZ (l : list Z) : forall k i d, (i < k)%nat -> nth i (firstn k l) d = nth i l d.
Proof.
  induction l as [|x l IH]; intros [|k] [|i] d Hi; cbn [firstn nth]; try reflexivity; try lia.
  apply IH. lia.
Qed.

Lemma okl_rev_firstn_ok inp ub l keep : okl (n inp) ub l -> pm_ok inp (firstn keep (rev l)).
Proof.
  intros Hl. split.
  - apply Forall_firstn_Z. apply Forall_rev. exact (okl_forall _ _ _ Hl).
  - intros i j Hij Hj. rewrite firstn_length, rev_length in Hj.
    rewrite !nth_firstn_ltZ by lia.
    rewrite !rev_nth by lia.
    apply (okl_desc (n inp) l ub); [exact Hl|lia|lia].
Qed.

Lemma finish_pm_ok t inp s : PInv inp s -> res_pm_ok inp (finish t inp s).
Proof.
  intros (Hp & Hl). unfold finish, res_pm_ok. apply (okl_rev_firstn_ok _ _ _ _ Hl).
Qed.

Lemma loop_pm_ok t sel inp cap : forall fuel s, PInv inp s ->
  res_pm_ok inp (loop t sel inp cap fuel s).
Proof.
  induction fuel as [|f IH]; intros s Hi; [exact I|].
  rewrite loop_unfold. destruct (ts_pos s >=? n inp) eqn:Eg.
  - apply finish_pm_ok. apply word_mark_pinv. exact Hi.
  - assert (Hn : ts_pos s < n inp) by lia.
    pose proof (step_pinv t sel inp cap s Hi Hn) as Hs.
    destruct (step t sel inp cap s) as [s'|s'|].
    + apply IH. exact Hs.
    + apply finish_pm_ok. exact Hs.
    + exact I.
Qed.

Lemma run_pm_ok t sel inp cap : res_pm_ok inp (run t sel inp cap).
Proof.
  unfold run. apply loop_pm_ok. unfold PInv. cbn [ts_pos ts_pm okl]. split; [lia|exact I].
Qed.
