(* C02 — back-translation, hyphenation and conversions memory safety: the part that is logic. *)
From Coq Require Import List ZArith Bool.
From Lou Require Import Gen.GAlloc Gen.GEmit Model.BufPlan Model.Emit Proofs.BufPlanProofs Proofs.EmitProofs.
From Lou Require Import Model.Hyph Proofs.HyphBounds.
Import ListNotations.
Local Open Scope Z_scope.

Theorem plan_back_first_passbuf : forall exact L, 0 <= L ->
  demand_back_first_passbuf L <= provided size_passbuf exact 0 L.
Proof. exact back_first_passbuf_ok. Qed.
Print Assumptions plan_back_first_passbuf.

Theorem plan_back_posmaps : forall exact L O, 0 <= L -> 0 <= O ->
  demand_back_posmap L O <= provided size_posMapping1 exact L O /\
  demand_back_posmap L O <= provided size_posMapping2 exact L O /\
  demand_back_posmap L O <= provided size_posMapping3 exact L O.
Proof. exact back_posmap_ok. Qed.

Theorem back_emit_invariant : forall maxlen in_len ops s,
  EInv maxlen in_len s -> Forall (wf_op in_len) ops ->
  EInv maxlen in_len (fold_left (estep maxlen in_len) ops s).
Proof. exact emit_inv_l. Qed.

Theorem back_emit_accepted_fits : forall out_len0 out_n maxlen pos in_n in_len,
  back_emit_rejects out_len0 out_n maxlen pos in_n in_len = false ->
  out_len0 + out_n <= maxlen /\ pos + in_n <= in_len.
Proof. exact back_accept_fits. Qed.

(* hyphenateWord writes hyphens[] only inside [0, wordSize): the array keeps its length for every
   dictionary and word, and no index below 0 is touched by the clamped loop *)
(* the plain one-element copy of the backward stage loops, as in C01 *)
Theorem back_stage_copy_fits : forall o m,
  (back_correct_copy_rejects o m = false -> o < m) /\ (back_pass_copy_rejects o m = false -> o < m) /\
  back_correct_copy_rejects o m = (o + 1 >? m) /\ back_pass_copy_rejects o m = (o + 1 >? m).
Proof. exact EmitProofs.back_stage_copy_l. Qed.
Print Assumptions back_stage_copy_fits.

Theorem hyphens_length_preserved : forall t w, length (fst (walk t w)) = length w.
Proof. exact HyphBounds.walk_length. Qed.
Print Assumptions hyphens_length_preserved.

Theorem hyphenate_writes_inlen_marks : forall is_letter lower is_hyphen t s marks oob,
  hyphenate is_letter lower is_hyphen t s = Some (marks, oob) ->
  length marks = length s /\ Forall (fun m => m = 48%N \/ m = 49%N \/ m = 50%N) marks.
Proof. exact HyphBounds.hyphenate_marks. Qed.
Print Assumptions hyphenate_writes_inlen_marks.
