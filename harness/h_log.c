/* H8: log filtering.  One case per line:  X cmd ; cmd ; ...
 *   S <level>            lou_setLogLevel
 *   R <0|1|2>            lou_registerLogCallback(NULL | cb1 | cb2)
 *   F <path>             lou_logFile(path)      (captures the default sink)
 *   E <level> <hex..>    _lou_logMessage(level, "%s", text)
 *   G <name>             lou_getTable(name)
 *   K <name>             lou_checkTable(name)
 *   C <table> | <rule>   lou_compileString(table, rule)
 *   T <table> <mode>     lou_translateString(table, "abc", mode)
 *   B <table> <mode>     lou_backTranslateString(table, "abc", mode)
 * Every case starts from lou_free(), level INFO, default sink.
 * Output: "X n | cb level hextext | ... # filehex"                                      */
#include "tbl.h"
static char cap[1 << 20];
static int capn, capcount;
static void
capture(int id, logLevels level, const char *m) {
	capcount++;
	capn += snprintf(cap + capn, sizeof cap - capn - 8, " | %d %d ", id, (int)level);
	for (; *m && capn < (int)sizeof cap - 16; m++)
		capn += sprintf(cap + capn, "%02x", (unsigned char)*m);
}
static void cb1(logLevels l, const char *m) { capture(1, l, m); }
static void cb2(logLevels l, const char *m) { capture(2, l, m); }
static char *
trim(char *s) {
	char *e;
	while (*s == ' ') s++;
	e = s + strlen(s);
	while (e > s && (e[-1] == ' ' || e[-1] == '\n')) *--e = 0;
	return s;
}
int
main(void) {
	while (fgets(h_line, H_LINE, stdin)) {
		char *p = h_line, *cmd, *save = NULL;
		char logpath[1024] = "";
		if (p[0] != 'X') continue;
		lou_free();
		lou_setLogLevel(LOU_LOG_INFO);
		lou_registerLogCallback(NULL);
		capn = capcount = 0;
		cap[0] = 0;
		for (cmd = strtok_r(p + 1, ";", &save); cmd; cmd = strtok_r(NULL, ";", &save)) {
			char *c = trim(cmd);
			char *arg = trim(c + 1);
			switch (c[0]) {
			case 'S':
				lou_setLogLevel((logLevels)atoi(arg));
				break;
			case 'R': {
				int k = atoi(arg);
				lou_registerLogCallback(k == 0 ? NULL : k == 1 ? cb1 : cb2);
				break;
			}
			case 'F':
				strncpy(logpath, arg, sizeof logpath - 1);
				remove(logpath);
				lou_logFile(logpath);
				break;
			case 'E': {
				char *e;
				int level = (int)strtol(arg, &e, 10);
				char text[4096];
				int n = 0;
				while (*e == ' ') e++;
				while (e[0] && e[1] && n < 4000) {
					unsigned v;
					sscanf(e, "%2x", &v);
					text[n++] = (char)v;
					e += 2;
				}
				text[n] = 0;
				_lou_logMessage((logLevels)level, "%s", text);
				break;
			}
			case 'G':
				lou_getTable(arg);
				break;
			case 'K':
				lou_checkTable(arg);
				break;
			case 'C': {
				char *bar = strchr(arg, '|');
				if (bar) {
					*bar = 0;
					lou_compileString(trim(arg), trim(bar + 1));
				}
				break;
			}
			case 'U': { /* U <table> <hex bytes>: translate the given (8-bit) text; its dump is logged at level ALL */
				char *sp = strrchr(arg, ' ');
				widechar in[256], out[1024];
				int il = 0, ol = 1024;
				if (!sp) break;
				*sp++ = 0;
				while (sp[0] && sp[1] && il < 255) {
					unsigned v = 0;
					sscanf(sp, "%2x", &v);
					in[il++] = (widechar)v;
					sp += 2;
				}
				lou_translateString(trim(arg), in, &il, out, &ol, NULL, NULL, 0);
				break;
			}
			case 'B': { /* B <table> <mode>: lou_backTranslateString(table, "abc", mode) */
				char *sp = strrchr(arg, ' ');
				widechar in[4] = { 'a', 'b', 'c', 0 }, out[64];
				int il = 3, ol = 64, mode = 0;
				if (sp) {
					mode = atoi(sp + 1);
					*sp = 0;
				}
				lou_backTranslateString(trim(arg), in, &il, out, &ol, NULL, NULL, mode);
				break;
			}
			case 'T': {
				char *sp = strrchr(arg, ' ');
				widechar in[4] = { 'a', 'b', 'c', 0 }, out[64];
				int il = 3, ol = 64, mode = 0;
				if (sp) {
					mode = atoi(sp + 1);
					*sp = 0;
				}
				lou_translateString(trim(arg), in, &il, out, &ol, NULL, NULL, mode);
				break;
			}
			default:
				break;
			}
		}
		lou_logEnd();
		printf("X %d%s #", capcount, cap);
		if (logpath[0]) {
			FILE *f = fopen(logpath, "rb");
			int ch;
			if (f) {
				while ((ch = fgetc(f)) != EOF) printf("%02x", ch);
				fclose(f);
			}
			remove(logpath);
		}
		printf("\n");
		fflush(stdout);
	}
	return 0;
}
