"""C03 — every translation, back-translation and hyphenation call terminates.
PROVE: Properties/C03.v — step bounds of the stage scanners (forward unconditional, backward in terms of the capacity),
 the main-pass engine and the hyphenation walk never exhaust their fuel.
CORRESPOND: per-site loop-head counts (hook VERIF_TICK) of every real call are compared with the proved linear bound; a
 budget of 4x the bound aborts a runaway call (reported as a hang with the case as replay).  Tables are generated to
 provoke non-advancing rules: insertion without consumption, self-replacement, look-back (also last / past the start),
 zero-width brackets, context rules in the main pass, match patterns with nested quantifiers over empty bodies."""
import os
import shutil

import common
import safety
import tablegen
import trans
from common import Rng, REPO

PID = "C03"
PASS_SITES = (0, 1, 2, 3, 8, 9, 10)


def nasty_rules(r, letters, cellvals):
    """hand-picked shapes that have caused or could cause non-progress"""
    a, b = r.choice(letters), r.choice(letters)
    ca, cb = r.choice(cellvals), r.choice(cellvals)
    d = lambda v: tablegen.dots_text(v & 0x7fff)
    ch = lambda c: chr(c)
    pool = [
        "noback pass2 _1 ?", "noback pass2 _1 *", "noback pass2 @%s_1 ?" % d(ca), "noback pass2 []@%s ?" % d(ca),
        "noback pass2 []@%s @%s" % (d(ca), d(cb)), "noback pass2 @%s[] @%s" % (d(ca), d(cb)), "noback pass2 @%s @%s" % (d(ca), d(ca)),
        "noback pass2 [@%s]_1 *" % d(ca), "noback pass2 @%s[]_2 *" % d(ca), "noback pass3 _2@%s ?" % d(ca), "noback pass4 []@%s *" % d(ca),
        "noback pass2 [@%s]_2 @%s" % (d(ca), d(cb)),
        'noback correct []"%s" "%s"' % (ch(a), ch(b)), 'noback correct "%s"[] "%s"' % (ch(a), ch(a)), 'noback correct _1"%s" ?' % ch(a),
        'noback correct "%s" "%s"' % (ch(a), ch(a)), 'noback correct ["%s"]_1 *' % ch(a),
        'noback context []"%s" ?' % ch(a), 'noback context "%s"[] @%s' % (ch(a), d(ca)), 'noback context _1"%s" ?' % ch(a),
        'noback context []"%s" *' % ch(a), 'noback context ["%s"]_1 @%s' % (ch(a), d(ca)),
        "nofor pass2 _1 ?", "nofor pass2 []@%s ?" % d(ca), "nofor pass2 @%s[] @%s" % (d(ca), d(cb)), "nofor pass2 @%s_1 @%s" % (d(ca), d(cb)),
        "nofor pass2 [@%s]_2 *" % d(ca), "nofor pass3 _1@%s *" % d(ca), "nofor pass2 @%s @%s" % (d(ca), d(ca)),
        'nofor correct []"%s" ?' % ch(a), 'nofor correct _1"%s" "%s"' % (ch(a), ch(b)), 'nofor correct "%s"[] "%s"' % (ch(a), ch(b)),
        "nofor context []@%s ?" % d(ca), "nofor context @%s[] \"%s\"" % (d(ca), ch(a)), "nofor context _1@%s ?" % d(ca), "nofor context []@%s *" % d(ca),
        "noback match - %s%s (%s*)* %s" % (ch(a), ch(b), ch(a), d(ca)), "noback match (%s?)*%s %s%s - %s" % (ch(a), ch(b), ch(a), ch(a), d(ca)),
        "noback match (%%a*)+ %s%s (.*)*%s %s" % (ch(a), ch(b), ch(b), d(cb)), "noback match !(%s*) %s - %s" % (ch(a), ch(b) + ch(a), d(ca)),
        "nofor match (%s*)* %s%s - %s" % (ch(a), ch(a), ch(b), d(ca)),
    ]
    # pairs that close a cycle only together: one rule moves the position to the left without output (look-back and an
    # empty bracket), the other consumes the cell again without output
    pairs = []
    for dr, stage in (("nofor", "pass2"), ("nofor", "pass3"), ("noback", "pass2"), ("noback", "pass4")):
        pairs.append(["%s %s _1[]@%s ?" % (dr, stage, d(ca)), "%s %s @%s ?" % (dr, stage, d(ca))])
        pairs.append(["%s %s _1[]@%s ?" % (dr, stage, d(ca)), "%s %s @%s @%s" % (dr, stage, d(ca), d(cb)), "%s %s @%s ?" % (dr, stage, d(cb))])
        pairs.append(["%s %s _2[]@%s ?" % (dr, stage, d(ca)), "%s %s @%s-%s ?" % (dr, stage, d(cb), d(ca)), "%s %s @%s ?" % (dr, stage, d(ca))])
    for dr in ("nofor", "noback"):
        pairs.append(['%s correct _1[]"%s" ?' % (dr, ch(a)), '%s correct "%s" ?' % (dr, ch(a))])
        pairs.append(['%s context _1[]%s ?' % (dr, ('"%s"' % ch(a)) if dr == "noback" else "@" + d(ca)),
                      '%s context %s ?' % (dr, ('"%s"' % ch(a)) if dr == "noback" else "@" + d(ca))])
    out = r.sample(pool, r.range(1, 4))
    if r.chance(0.5):
        out += r.choice(pairs)
    return out


exotic_rules = tablegen.gen_exotic_rules


def bound_for(L, O):
    """proved per-pass bound on loop heads: 2*max(L,O)+2 for each of at most 5 passes, forward and backward sites;
    hyphenation: (wordsize+2) * (longest fallback chain) - covered by the same linear budget"""
    return 2 * max(L, O) + 2


def run(chk):
    rng = Rng(chk.seed).fork(PID)
    gen = common.gen_stage()
    prove = common.prove_stage(PID)
    common.model_driver()
    exe = common.build_harness("h_trans")
    env = {"LOUIS_TABLEPATH": str(REPO / "tables")}
    quick = chk.tier == "quick"
    work = common.BUILD / ("work-c03-%d" % os.getpid())
    shutil.rmtree(work, ignore_errors=True)
    work.mkdir(parents=True)
    lists = []
    for i in range(220 if quick else 6000):
        r = rng.fork(("t", i))
        entries, rules, letters = tablegen.gen_c06_table(r, risky=True, directions=("noback", "nofor"))
        cellvals = [0x8000 | e.dots[0] for e in entries if e.chars[0] != 32]
        text = tablegen.pass_table_text(entries, rules)
        if r.chance(0.7):
            text += "\n".join(nasty_rules(r, letters, cellvals)) + "\n"
        if r.chance(0.4):
            text += "\n".join(tablegen.gen_group_swap_rules(r, letters, cellvals)) + "\n"
        exotic = r.chance(0.4)
        if exotic:
            text += "\n".join(exotic_rules(r, letters)) + "\n"
            letters = letters + [45, 45, 49, 32, 46, 0xe1, 0xe0, 65]
        tf = work / ("t%d.utb" % i)
        tf.write_text(text)
        lists.append((str(tf), letters + [32], [0x8000 | e.dots[0] for e in entries], text))
    for t in safety.shipped_tables(rng.fork("tables"), 25 if quick else 10 ** 6):
        lists.append((t, None, None, None))
    maxratio = 0.0
    for tl, letters, cells, text in lists:
        r = rng.fork(("cases", tl))
        probe = common.run_stream(exe, ["t " + tl], ["c"], env=env)
        if isinstance(probe[0], tuple) or probe[0].strip() != "C 1":
            chk.tally("tables_rejected_by_the_compiler")
            continue
        lines, meta = [], []
        # operand strings of the table's own special main-pass rules: inputs are built around them, because the handlers
        # that rewind or skip (nocont, compbrl, repeated, replace ...) only run where their string occurs
        specials = []
        for tline in (text or "").splitlines():
            tw = tline.split()
            if len(tw) >= 2 and tw[0] in ("nocont", "compbrl", "literal", "replace", "contraction", "repeated", "joinword", "largesign",
                                          "comp6", "syllable", "partword", "begword", "lowword", "noletsign", "repword", "rependword"):
                sp = tw[1].replace("\\s", " ")
                if sp and all(ord(c) < 128 for c in sp) and "\\" not in sp:
                    specials.append([ord(c) for c in sp])
        ncase = 24 if quick else 80
        naimed = (10 if quick else 40) if specials and letters is not None else 0
        for k in range(ncase + naimed):
            back = r.chance(0.45) and k < ncase
            if letters is None:
                inp = [c for c in safety.gen_input(r, 30) if c] or [97]
                mode = r.choice([0, 4, 1, 128, 256])
                if back and mode & 4:
                    inp = [0x8000 | (c & 0xff) for c in inp]
            else:
                inp = [r.choice(cells if back else letters) for _ in range(r.range(1, 14))]
                mode = 4 | r.choice([0, 0, 1, 1, 128, 256, 16, 64, 1 | 128])   # dotsIO plus other mode bits (noContractions, ...)
            tfm = None
            if not back and letters is not None and specials and (k >= ncase or r.chance(0.3)):
                # word = some characters, possibly a sequence delimiter, some more, then the rule's string
                wl = [c for c in letters if c not in (32, 45)] or [97]
                pre = [r.choice(wl) for _ in range(r.range(0, 3))]
                if r.chance(0.7):
                    pre += [45] + [r.choice(wl) for _ in range(r.range(0, 2))]
                if k >= ncase:
                    mode = 4 | r.choice([0, 0, 0, 0, 128, 256, 16, 64, 1])
                inp = ([r.choice(letters) for _ in range(r.range(0, 2))] + [32] if r.chance(0.3) else []) + pre + r.choice(specials) + \
                    [r.choice(letters) for _ in range(r.range(0, 3))]
            if not back and letters is not None and 45 in inp[:-1] and r.chance(0.6):
                # one marked character in front of the first sequence delimiter, the rest plain
                tfm = [0] * len(inp)
                tfm[r.range(0, max(0, inp.index(45) - 1))] = r.choice([0x1000, 0x1000, 0x400, 0x800])
            elif not back and r.chance(0.4):
                # typeform bits steer the main loop's contraction state (no_contract, computer_braille, no_translate)
                tfm = [r.choice([0, 0, 0, 0x1000, 0x1000, 0x400, 0x800, 1]) for _ in inp] if r.chance(0.7) else safety.gen_typeform(r, len(inp))
            outlen = r.choice([4 * len(inp) + 10, 4 * len(inp) + 10, r.range(0, len(inp) + 2), 3 * len(inp)])
            fn = "B" if back else "T"
            lines.append(trans.case_line(fn, mode, inp, outlen, presence=12 | (1 if tfm else 0), typeform=tfm))
            meta.append((fn, len(inp), outlen))
        # budget: 4x the proved bound for the largest case of this batch, plus slack for pattern/hyphenation sites
        B = max(bound_for(L, O) for _, L, O in meta)
        rs = trans.run_cases(exe, tl, lines, exact=1, env=env, timeout=300, budget=4 * 6 * B + 4000)
        for ln, (fn, L, O), res in zip(lines, meta, rs):
            key = (text or tl, ln)
            case = dict(table_list=tl, table=text, case_line=ln)
            if res.crash:
                if res.crash[0] == "HANG":
                    chk.count(key)
                    chk.violation("hang:watchdog", "no result within the wall-clock limit (loop without a tick site?): %s" % ln[:100], case)
                else:
                    bad = safety.classify(res)
                    chk.count(key)
                    chk.violation(bad[0], "%s: %s" % (bad[1], ln[:100]), case)
                continue
            chk.count(key, nontrivial=res.hang is None and res.ret == 1 and res.outlen > 0)
            chk.tally("fn_" + fn)
            if res.hang is not None:
                chk.violation("hang:site%d" % res.hang, "tick budget exceeded in loop site %d (forward 0=correct 1=pass 2=main; backward 8=correct 9=main 10=pass; 12=pattern): %s"
                              % (res.hang, ln[:120]), dict(case, ticks=res.ticks))
                continue
            b = bound_for(L, O)
            # the proved bound of the main loop is a statement about the modelled fragment; rules that rewind to the start of
            # a word (nocont, compbrl, literal ...) legitimately pass a word once more: for tables with such rules the main
            # loop (site 2) is held to twice the bound only, and to the tick budget
            fac = lambda st: 3 if st in (1, 10) else 2 if (st == 2 and specials) else 1
            over = [(st, c) for st, c in res.ticks.items() if st in PASS_SITES and c > fac(st) * b]
            for st, c in res.ticks.items():
                if st in PASS_SITES:
                    maxratio = max(maxratio, c / float(fac(st) * b))
            if over:
                chk.violation("bound:site%d" % over[0][0], "loop site %d ran %d times, the proved bound for (inlen %d, outlen %d) is %d"
                              % (over[0][0], over[0][1], L, O, b), dict(case, ticks=res.ticks))
                continue
            chk.cov["traces_validated_against_impl"] += 1
            if res.ret == 1 and sum(res.ticks.values()) > 2 * L + 4:
                chk.sample(dict(table=os.path.basename(tl), case=ln[:100], ticks=res.ticks, bound_per_pass=b), cap=3)
    shutil.rmtree(work, ignore_errors=True)
    chk.cov["max_observed_ticks_over_bound"] = round(maxratio, 3)
    chk.cov["rule"] = ("generated tables (one-to-one main pass + risky literal multipass rules in both directions + hand-picked non-progress shapes: "
                       "look-back last/past start, zero-width brackets with ?/*/literal, self-replacement, context rules in the main pass, match "
                       "patterns with nested quantifiers) and a sample of shipped tables; forward and backward calls with capacities 0..generous; "
                       "per-site loop-head counts against the proved bound, budget = 4 x 6 passes x bound; distinct = (table, case)")
    chk.cov["gen_status"] = gen
    chk.cov["checker_cmd"] = "make -C coq Properties/C03.vo (coqc 8.16.1)"
    chk.cov["trusted_base"] = common.TRUSTED_COMMON + [
        "hook VERIF_TICK counts loop heads of the pass scanners, main loops, hyphenation walk and pattern matcher",
        "partial: pattern.c (match/backmatch) has no model; its termination is observed through the tick budget only"]
    if not prove["ok"] and not chk.violations:
        chk.violation("proof", "Properties/%s.v no longer checks: %s" % (PID, prove["failed"][:5]),
                      dict(no_failing_input=True, broken=prove["failed"], log=prove["log"][-1500:], gen=gen))
    return chk.finish(prove)
