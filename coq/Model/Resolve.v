(* M8 — table name resolution (resolveSubtable, _lou_getTablePath, _lou_defaultTableResolver)
   as an interpreter of the generated candidate programs (Gen/GResolve.v) over an arbitrary
   file-system predicate.  Executable, no proofs. *)
From Coq Require Import List NArith Bool.
From Lou Require Import Model.ResolveDefs Gen.GResolve.
Import ListNotations.
Local Open Scope N_scope.

Definition path := list N.
Definition sep : N := 47.        (* '/' *)
Definition comma : N := 44.

Definition is_sep (c : N) : bool := (c =? 47) || (c =? 92).

Fixpoint drop_until_sep (r : path) : path :=
  match r with
  | [] => []
  | c :: r' => if is_sep c then r else drop_until_sep r'
  end.

(* everything up to and including the last '/' or '\'; empty when there is none *)
Definition dirpart (b : path) : path := rev (drop_until_sep (rev b)).

Fixpoint split_commas_aux (s cur : path) : list path :=
  match s with
  | [] => [rev cur]
  | c :: s' => if c =? comma then rev cur :: split_commas_aux s' [] else split_commas_aux s' (c :: cur)
  end.
Definition split_commas (s : path) : list path := split_commas_aux s [].

Definition fix_dir (d : path) : path :=
  match d with [] => if empty_dir_is_dot then [46] else [] | _ => d end.

Fixpoint loop_cands (prog : list cand) (table dir : path) (last : bool) : list path :=
  match prog with
  | [] => []
  | CDir :: r => (dir ++ [sep] ++ table) :: loop_cands r table dir last
  | CDirSub sub :: r => (dir ++ [sep] ++ sub ++ [sep] ++ table) :: loop_cands r table dir last
  | CBreakIfLast :: r => if last then [] else loop_cands r table dir last
  | _ :: r => loop_cands r table dir last
  end.

Fixpoint path_cands (dirs : list path) (table : path) : list path :=
  match dirs with
  | [] => []
  | [d] => loop_cands resolve_loop table (fix_dir d) true
  | d :: ds => loop_cands resolve_loop table (fix_dir d) false ++ path_cands ds table
  end.

Fixpoint top_cands (prog : list cand) (table : path) (base : option path) : list path :=
  match prog with
  | [] => []
  | CBaseDir :: r =>
      match base with Some b => [dirpart b ++ table] | None => [] end ++ top_cands r table base
  | CAsGiven :: r => table :: top_cands r table base
  | _ :: r => top_cands r table base
  end.

Definition candidates (table : path) (base : option path) (searchPath : path) : list path :=
  top_cands resolve_top table base ++
  match searchPath with [] => [] | _ => path_cands (split_commas searchPath) table end.

Section FS.
  Variable exists_file : path -> bool.    (* stat() succeeds and it is not a directory *)

  Definition resolve_sub (table : path) (base : option path) (searchPath : path) : option path :=
    match table with
    | [] => None
    | _ => find exists_file (candidates table base searchPath)
    end.

  Fixpoint resolve_rest (names : list path) (base : option path) (sp : path) : option (list path) :=
    match names with
    | [] => Some []
    | n :: r =>
        match resolve_sub n base sp with
        | None => None
        | Some p => option_map (cons p) (resolve_rest r base sp)
        end
    end.

  (* _lou_defaultTableResolver: the first member is resolved against [base]; the others
     against the first member's name as given *)
  Definition resolve_list (tableList : path) (base : option path) (sp : path) : option (list path) :=
    match split_commas tableList with
    | [] => None
    | n0 :: r =>
        match resolve_sub n0 base sp with
        | None => None
        | Some p0 =>
            option_map (cons p0)
              (resolve_rest r (if list_base_becomes_first_name_as_given then Some n0 else base) sp)
        end
    end.
End FS.

(* _lou_getTablePath *)
Definition nonempty (o : option path) : option path :=
  match o with Some [] => None | _ => o end.

Fixpoint sp_parts (parts : list pathpart) (env data : option path) (builtin : path) (envset : bool) : path :=
  match parts with
  | [] => []
  | PEnv :: r =>
      match nonempty env with
      | Some e => comma :: e ++ sp_parts r env data builtin true
      | None => sp_parts r env data builtin envset
      end
  | PData sub :: r =>
      match nonempty data with
      | Some d => comma :: d ++ [sep] ++ sub ++ sp_parts r env data builtin envset
      | None => sp_parts r env data builtin envset
      end
  | PBuiltinIfNoEnv :: r =>
      if envset then sp_parts r env data builtin envset
      else comma :: builtin ++ sp_parts r env data builtin envset
  end.

Definition search_path (env data : option path) (builtin : path) : path :=
  match sp_parts searchpath_parts env data builtin false with
  | [] => [46]
  | _ :: p => p
  end.
