(* C07: the comparisons and values of the finishing code, REGENERATED from _lou_translate and _lou_backTranslate
   (Gen/GPosMap.v), are exactly the ones the model Model/Finish.v is written with.  The C07 theorems are about
   Model/Finish.v; this file is what makes them theorems about the current source. *)
From Coq Require Import List ZArith Bool Lia ZifyBool.
From Lou Require Import Gen.GPosMap Model.Finish.
Local Open Scope Z_scope.

(* one step of the model's scan and its tail, written with named operators *)
Definition model_enter (p a : Z) : bool := p >? a.
Definition model_fill_count (a p : Z) : nat := Z.to_nat (p - a).          (* iterations of `while (a < p) a++' *)
Definition model_store_guard (a bound : Z) : bool := (0 <=? a) && (a <? bound).
Definition model_store_value (b : Z) : Z := if b <? 0 then 0 else b.
Definition model_tail_start (a : Z) : Z := if a <? 0 then 0 else a.

Lemma scan_unfold p pm k a b bound arr :
  scan (p :: pm) k a b bound arr =
  if model_enter p a then scan pm (k + 1) p k bound (fill (model_fill_count a p) a (model_store_value b) bound arr)
  else scan pm (k + 1) a b bound arr.
Proof. reflexivity. Qed.

Lemma fill_unfold c a v bound arr :
  fill (S c) a v bound arr = fill c (a + 1) v bound (if model_store_guard a bound then set_nth arr (Z.to_nat a) v else arr).
Proof. reflexivity. Qed.

Lemma inverse_unfold pm n bound arr0 :
  inverse_map pm n bound arr0 =
  let '(a, b, arr) := scan (firstn n pm) 0 (-1) (-1) bound arr0 in
  fill (Z.to_nat (bound - model_tail_start a)) (model_tail_start a) b bound arr.
Proof. reflexivity. Qed.

(* `while (a < p) { ...; a++; }' runs exactly Z.to_nat (p - a) times: the loop condition of the source agrees with the
   count the model uses at every iteration *)
Lemma while_count_agrees (cond : Z -> Z -> bool) (Hc : forall a p, cond a p = (a <? p)) :
  forall n a p, n = Z.to_nat (p - a) -> cond a p = match n with O => false | S _ => true end.
Proof. intros n a p Hn. rewrite Hc. destruct n; lia. Qed.

Lemma source_operators_are_the_model_l : forall p a b bound,
  (* forward: outputPos scan and inputPos clamp of _lou_translate *)
  fwd_scan_enter p a = model_enter p a /\
  fwd_scan_fill_while a p = (a <? p) /\
  fwd_scan_store_guard a bound = model_store_guard a bound /\
  fwd_scan_store_value b = model_store_value b /\
  (if fwd_scan_tail_reset a then 0 else a) = model_tail_start a /\
  fwd_scan_tail_while a bound = (a <? bound) /\
  fwd_clamp p bound = clamp bound p /\
  (* backward: inputPos scan and outputPos clamp of _lou_backTranslate *)
  back_scan_enter p a = model_enter p a /\
  back_scan_fill_while a p = (a <? p) /\
  back_scan_store_guard a bound = model_store_guard a bound /\
  back_scan_store_value b = model_store_value b /\
  (if back_scan_tail_reset a then 0 else a) = model_tail_start a /\
  back_scan_tail_while a bound = (a <? bound) /\
  back_clamp p bound = clamp bound p.
Proof.
  intros p a b bound.
  unfold fwd_scan_enter, fwd_scan_fill_while, fwd_scan_store_guard, fwd_scan_store_value, fwd_scan_tail_reset,
    fwd_scan_tail_while, fwd_clamp, back_scan_enter, back_scan_fill_while, back_scan_store_guard, back_scan_store_value,
    back_scan_tail_reset, back_scan_tail_while, back_clamp, model_enter, model_store_guard, model_store_value,
    model_tail_start, clamp.
  repeat split; try reflexivity; try lia.
Qed.
Print Assumptions source_operators_are_the_model_l.
