"""C02 — back-translation, hyphenation and conversions never access memory outside their buffers.
PROVE: Properties/C02.v (backward plan, emission choke points, hyphens array bounds on the Hyph model).
CORRESPOND: ASan+UBSan streams: lou_backTranslate / lou_backTranslateString on real forward translations,
 mutated and random cells (flagged, Unicode braille, undefined), lou_charToDots / lou_dotsToChar,
 lou_hyphenate in text and braille mode with exactly sized arrays; valgrind memcheck sample (thorough)."""
import os
import shutil

import common
import safety
import trans
from common import Rng, REPO
from props import c01, c17

PID = "C02"


def hyphenate_stream(chk, rng):
    exe = common.build_harness("h_hyph")
    work = common.BUILD / ("work-c02h-%d" % os.getpid())
    shutil.rmtree(work, ignore_errors=True)
    work.mkdir(parents=True)
    env = {"LOUIS_TABLEPATH": str(REPO / "tables")}
    lists = ["en-us-g1.ctb,hyph_en_US.dic", "en-us-g2.ctb,hyph_en_US.dic", "de-g1.ctb,hyph_de_DE.dic", "cs-g1.ctb,hyph_cs_CZ.dic"]
    # generated dictionaries incl. patterns with a digit before a leading '.'
    for i in range(25 if chk.tier == "quick" else 300):
        r = rng.fork(("hd", i))
        p = work / ("g%d.dic" % i)
        c17.gen_dict(r, p)
        bt = work / ("g%d.utb" % i)
        c17.base_table(set(range(97, 102)), bt)
        lists.append("%s,%s" % (bt, p))
    for tl in lists:
        r = rng.fork(("hw", tl))
        lines = []
        for _ in range(40 if chk.tier == "quick" else 200):
            mode = r.choice([0, 0, 1])
            if mode == 0:
                w = [r.choice([97, 98, 99, 100, 101, 65, 32, 45, 44, 0xffff, 0x2801]) for _ in range(r.range(0, 30))]
                if r.chance(0.1):
                    w = (w * 10)[:r.choice([98, 99, 100, 101, 150])]
            else:
                w = [r.choice([0x2801, 0x2803, 0x2809, 0x2811, 0x2800, 0x281f, 97, 98, 32, 0x8001]) for _ in range(r.range(0, 30))]
                if r.chance(0.1):
                    w = (w * 10)[:r.choice([98, 99, 100])]
            lines.append("W %d %s" % (mode, " ".join(map(str, w))))
        out = common.run_stream(exe, ["t " + tl], lines, env=env, timeout=300)
        for ln, o in zip(lines, out):
            chk.count((tl, ln), nontrivial=not isinstance(o, tuple) and o.startswith("W 1"))
            chk.tally("hyphenate_mode_" + ln.split()[1])
            if isinstance(o, tuple):
                import re
                m = re.search(r" at (\w+) (\S+)$", o[1])
                chk.violation("crash:" + (m.group(1) if m else "lou_hyphenate"), "lou_hyphenate: %s on %s: %s" % (o[1], tl, ln[:100]),
                              dict(table_list=tl, case_line=ln, dictionary=open(tl.split(",")[1]).read() if "/work-" in tl else None))
                continue
            head, _, tail = o.partition("|")
            ret = head.split()[1]
            marks = [int(x) for x in tail.split()]
            n = len(ln.split()) - 2
            if ret == "1" and not (all(m in (48, 49, 50) for m in marks[:n]) and marks[n] == 0):
                chk.violation("hyphens-content", "lou_hyphenate wrote something else than inlen marks from '0','1','2' and a NUL: %s -> %s" % (ln[:80], o[:120]),
                              dict(table_list=tl, case_line=ln, impl=o))
            elif ret == "0" and n < 100 and "/work-" in tl and False:
                pass
            else:
                chk.cov["traces_validated_against_impl"] += 1
    shutil.rmtree(work, ignore_errors=True)


def run(chk):
    rng = Rng(chk.seed).fork(PID)
    gen = common.gen_stage()
    prove = common.prove_stage(PID)
    common.model_driver()
    c01.run_streams(chk, rng, "BBBUCD", True, PID)
    hyphenate_stream(chk, rng)
    chk.cov["rule"] = ("per table (shipped sample + generated F tables): lou_backTranslate / lou_backTranslateString on forward translations "
                       "of generated text (cut, mutated), random flagged / Unicode-braille / undefined cells, NUL inside, all mode bits, "
                       "capacities 0..generous, presence patterns, cursor; lou_charToDots / lou_dotsToChar; lou_hyphenate text and braille "
                       "mode incl. words of 98..150 characters and dictionaries with a digit before a leading dot; exact scratch sizes, "
                       "exact caller arrays, ASan+UBSan; long inputs without the hook; distinct = (table, case); non-trivial = returned 1")
    chk.cov["gen_status"] = gen
    chk.cov["checker_cmd"] = "make -C coq Properties/C02.vo (coqc 8.16.1)"
    chk.cov["trusted_base"] = common.TRUSTED_COMMON + [
        "tools/gen/g_alloc.py, g_emit.py", "demands in Model/BufPlan.v are read off the code by hand and validated by the sanitizer runs",
        "partial: the backward rule matcher and multipass interpreter are observed by ASan/UBSan only"]
    chk.assumptions = ["uninitialised reads are only observed by the valgrind sample of the thorough tier"]
    if not prove["ok"] and not chk.violations:
        chk.violation("proof", "Properties/%s.v no longer checks: %s" % (PID, prove["failed"][:5]),
                      dict(no_failing_input=True, broken=prove["failed"], log=prove["log"][-1500:], gen=gen))
    return chk.finish(prove)
